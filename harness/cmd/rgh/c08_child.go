package main

// `rgh c08child <spec.json>` — the part of the C08 check that runs the real engine concurrently.
// It is executed by the parent (c08.go) in a copy of this binary built with `-race`, in GOPATH mode
// (GO111MODULE=off, GOPATH=<work dir>) so that the generated packages are importable *from source*
// and nobody has imported them before: every round starts with cold engine caches.
//
// Two kinds of rounds:
//   FT   N goroutines call engineState.FindType (hook VerifFindType) with lists of names on a fresh
//        engine; per-call outcomes and the key sets of both caches afterwards are reported.
//   Run  a fresh engine is loaded with generated rules whose custom filters call GetType /
//        GetInterface on packages the targets may or may not import; every target file is first run
//        alone on its own fresh engine (the baseline "lone sequential call"), then N goroutines run
//        their assigned files concurrently on one cold engine (states: nil / own / pooled), then
//        every file is run once more sequentially on that now warm engine.
// The race detector writes its reports to GORACE's log_path; the parent parses them.

import (
	"encoding/json"
	"fmt"
	"go/ast"
	"go/importer"
	"go/parser"
	"go/token"
	"go/types"
	"os"
	"path/filepath"
	"runtime"
	"sort"
	"strings"
	"sync"

	"github.com/quasilyte/go-ruleguard/analyzer"
	"github.com/quasilyte/go-ruleguard/ruleguard"
	"golang.org/x/tools/go/analysis"
	"verifharness/hx"
)

type c08FTRound struct {
	ID         int        `json:"id"`
	Threads    [][]string `json:"threads"`
	CurrentPkg string     `json:"current_pkg"` // "" = nil
	Mixed      bool       `json:"mixed"`       // only even threads pass CurrentPkg, odd ones pass nil
	Sequential bool       `json:"sequential"`
}

type c08RunRound struct {
	ID             int      `json:"id"`
	Rules          string   `json:"rules"`
	Files          []string `json:"files"`  // import paths of one-file target packages (labels of the files of Pkgs when Pkgs is set)
	Assign         [][]int  `json:"assign"` // per worker: indices into Files, run in this order
	StateMode      string   `json:"state_mode"`
	SharedUniverse bool     `json:"shared_universe"`
	Kinds          []string `json:"kinds"`
	// "typeid" rounds (gen_typeid.go): the targets are the Targets files of these multi-file packages, each package
	// type-checked once under Path (several packages may share a path), in this order; Files holds their labels
	Pkgs     []c08PkgRef   `json:"pkgs,omitempty"`
	TidRules []tidRuleInfo `json:"tid_rules,omitempty"`
}

type c08PkgRef struct {
	Path    string   `json:"path"`
	Dir     string   `json:"dir"`
	All     []string `json:"all"`     // every file of the package
	Targets []string `json:"targets"` // the files that are analysed
}

// c08Narrow: a sequential replay that reproduces a difference of a typeid round with one rule (atom)
type c08Narrow struct {
	Earlier string   `json:"earlier"`
	Probe   string   `json:"probe"`
	Kinds   string   `json:"kinds"`
	Rule    string   `json:"rule"`
	Lone    []string `json:"reports_only_in_lone_run"`
	After   []string `json:"reports_only_after_earlier_file"`
}

// c08AdapterRound: N goroutines call analyzer.Analyzer.Run on hand-built passes while the process-wide
// engine of analyzer/analyzer.go is still unset (prepareEngine + runnerStatePool under contention),
// then every file is analysed once more sequentially.
type c08AdapterRound struct {
	Rules  string   `json:"rules"`
	Files  []string `json:"files"`
	Assign [][]int  `json:"assign"`
}

type c08AdapterOut struct {
	Err        string     `json:"err,omitempty"`
	Concurrent [][]string `json:"concurrent"` // per worker, per assigned file: diagnostics
	Sequential []string   `json:"sequential"` // per file
}

type c08Spec struct {
	Adapter    *c08AdapterRound `json:"adapter,omitempty"`
	GoPath     string           `json:"gopath"`
	GoMaxProcs int              `json:"gomaxprocs"`
	FT         []c08FTRound     `json:"ft"`
	Runs       []c08RunRound    `json:"runs"`
	Ctx        []c08CtxRound    `json:"ctx,omitempty"` // shared-context rounds (c08_ctx.go)
}

type c08Call struct {
	Fqn string `json:"fqn"`
	Out string `json:"out"` // class of the returned type, or "e"
}

type c08FTOut struct {
	ID       int                 `json:"id"`
	Before   []string            `json:"before"`
	Calls    [][]c08Call         `json:"calls"`
	After    []string            `json:"after"`
	PkgAfter []string            `json:"pkg_after"`
	Oracle   map[string]string   `json:"oracle"`  // fqn -> class ("" = does not resolve)
	Closure  map[string][]string `json:"closure"` // package path -> itself + complete transitive imports ("" key absent = not importable)
	Panics   []string            `json:"panics,omitempty"`
	// names for which two successful calls of this round returned different objects (pointer identity)
	Unstable []string `json:"unstable,omitempty"`
}

type c08RunOut struct {
	ID        int        `json:"id"`
	LoadErr   string     `json:"load_err,omitempty"`
	Baseline  []string   `json:"baseline"`   // per file: outcome of a lone run on a fresh engine
	Workers   [][]string `json:"workers"`    // per worker, per assigned file: outcome under concurrency
	WarmAfter []string   `json:"warm_after"` // per file: sequential run on the shared engine afterwards
	Narrow    *c08Narrow `json:"narrow,omitempty"`
}

type c08Out struct {
	Adapter *c08AdapterOut `json:"adapter,omitempty"`
	FT      []c08FTOut     `json:"ft"`
	Runs    []c08RunOut    `json:"runs"`
	Ctx     []c08CtxOut    `json:"ctx,omitempty"`
	Errors  []string       `json:"errors,omitempty"`
}

func typeClass(t types.Type) string {
	if t == nil {
		return "<nil>"
	}
	if n, ok := types.Unalias(t).(*types.Named); ok && n.Obj().Pkg() != nil {
		return n.Obj().Pkg().Path() + "." + n.Obj().Name()
	}
	return t.String()
}

// c08Oracle resolves names independently of the engine (own source importer, own universe).
type c08Oracle struct {
	mu   sync.Mutex
	imp  types.Importer
	pkgs map[string]*types.Package
}

func newC08Oracle() *c08Oracle {
	return &c08Oracle{imp: importer.ForCompiler(token.NewFileSet(), "source", nil), pkgs: map[string]*types.Package{}}
}

func (o *c08Oracle) pkg(path string) *types.Package {
	o.mu.Lock()
	defer o.mu.Unlock()
	if p, ok := o.pkgs[path]; ok {
		return p
	}
	var p *types.Package
	func() {
		defer func() { _ = recover() }()
		q, err := o.imp.Import(path)
		if err == nil {
			p = q
		}
	}()
	o.pkgs[path] = p
	return p
}

func (o *c08Oracle) class(fqn string, builtin map[string]bool) string {
	if builtin[fqn] {
		return fqn
	}
	pos := strings.LastIndexByte(fqn, '.')
	if pos < 0 {
		return ""
	}
	p := o.pkg(fqn[:pos])
	if p == nil {
		return ""
	}
	obj := p.Scope().Lookup(fqn[pos+1:])
	if obj == nil {
		return ""
	}
	return typeClass(obj.Type())
}

func (o *c08Oracle) closure(path string) []string {
	p := o.pkg(path)
	if p == nil {
		return nil
	}
	seen := map[string]bool{}
	var walk func(q *types.Package)
	walk = func(q *types.Package) {
		if seen[q.Path()] {
			return
		}
		seen[q.Path()] = true
		for _, im := range q.Imports() {
			if im.Complete() {
				walk(im)
			}
		}
	}
	walk(p)
	var res []string
	for k := range seen {
		res = append(res, k)
	}
	sort.Strings(res)
	return res
}

// c08Target parses and type-checks the single file of package `path` under GOPATH.
func c08Target(gopath, path string, imp types.Importer, fset *token.FileSet) (*hx.Target, error) {
	dir := filepath.Join(gopath, "src", filepath.FromSlash(path))
	ents, err := os.ReadDir(dir)
	if err != nil {
		return nil, err
	}
	var name string
	for _, e := range ents {
		if strings.HasSuffix(e.Name(), ".go") {
			name = filepath.Join(dir, e.Name())
		}
	}
	src, err := os.ReadFile(name)
	if err != nil {
		return nil, err
	}
	f, err := parser.ParseFile(fset, name, src, parser.ParseComments)
	if err != nil {
		return nil, err
	}
	info := &types.Info{
		Types:      map[ast.Expr]types.TypeAndValue{},
		Uses:       map[*ast.Ident]types.Object{},
		Defs:       map[*ast.Ident]types.Object{},
		Selections: map[*ast.SelectorExpr]*types.Selection{},
		Implicits:  map[ast.Node]types.Object{},
		Scopes:     map[ast.Node]*types.Scope{},
		Instances:  map[*ast.Ident]types.Instance{},
	}
	cfg := types.Config{Importer: imp}
	pkg, err := cfg.Check(path, fset, []*ast.File{f}, info)
	if err != nil {
		return nil, err
	}
	return &hx.Target{Fset: fset, File: f, Info: info, Pkg: pkg, Src: src, Name: name}, nil
}

func c08Outcome(e *ruleguard.Engine, t *hx.Target, st *ruleguard.RunnerState) string {
	reports, pk, frame, err := hx.Run(e, t, hx.RunOpts{State: st})
	if err != nil {
		return "ERR " + err.Error()
	}
	if pk != "" {
		return "PANIC " + pk + " @" + frame
	}
	var s []string
	for _, r := range reports {
		s = append(s, fmt.Sprintf("%d %s", r.Line, r.String()))
	}
	return strings.Join(s, " | ")
}

func c08LoadEngine(rules string) (*ruleguard.Engine, error) {
	e := ruleguard.NewEngine()
	err := hx.LoadInto(e, "rules.go", rules, nil)
	return e, err
}

func runC08FT(spec *c08Spec, r c08FTRound, oracle *c08Oracle) c08FTOut {
	out := c08FTOut{ID: r.ID, Oracle: map[string]string{}, Closure: map[string][]string{}}
	e := ruleguard.NewEngine()
	out.Before = ruleguard.VerifTypeCacheKeys(e)
	builtin := map[string]bool{}
	for _, k := range out.Before {
		builtin[k] = true
	}
	fset := token.NewFileSet()
	var cur *types.Package
	if r.CurrentPkg != "" {
		t, err := c08Target(spec.GoPath, r.CurrentPkg, importer.ForCompiler(fset, "source", nil), fset)
		if err == nil {
			cur = t.Pkg
		}
	}
	out.Calls = make([][]c08Call, len(r.Threads))
	var mu sync.Mutex
	objs := map[string]map[types.Type]bool{}
	work := func(i int) {
		cur := cur
		if r.Mixed && i%2 == 1 {
			cur = nil
		}
		imp := ruleguard.VerifNewImporter(e, fset)
		calls := make([]c08Call, 0, len(r.Threads[i]))
		for _, fqn := range r.Threads[i] {
			c := c08Call{Fqn: fqn}
			func() {
				defer func() {
					if rec := recover(); rec != nil {
						c.Out = "PANIC"
						mu.Lock()
						out.Panics = append(out.Panics, fmt.Sprintf("FindType(%q): %v", fqn, rec))
						mu.Unlock()
					}
				}()
				typ, err := ruleguard.VerifFindType(e, imp, cur, fqn)
				if err != nil {
					c.Out = "e"
				} else {
					c.Out = typeClass(typ)
					mu.Lock()
					if objs[fqn] == nil {
						objs[fqn] = map[types.Type]bool{}
					}
					objs[fqn][typ] = true
					mu.Unlock()
				}
			}()
			calls = append(calls, c)
		}
		out.Calls[i] = calls
	}
	if r.Sequential {
		for i := range r.Threads {
			work(i)
		}
	} else {
		var wg sync.WaitGroup
		start := make(chan struct{})
		for i := range r.Threads {
			wg.Add(1)
			go func(i int) {
				defer wg.Done()
				<-start
				work(i)
			}(i)
		}
		close(start)
		wg.Wait()
	}
	for fqn, set := range objs {
		if len(set) > 1 {
			out.Unstable = append(out.Unstable, fqn)
		}
	}
	sort.Strings(out.Unstable)
	out.After = ruleguard.VerifTypeCacheKeys(e)
	out.PkgAfter = ruleguard.VerifPkgCacheKeys(e)
	for _, th := range r.Threads {
		for _, fqn := range th {
			if _, ok := out.Oracle[fqn]; !ok {
				out.Oracle[fqn] = oracle.class(fqn, builtin)
			}
			if pos := strings.LastIndexByte(fqn, '.'); pos >= 0 {
				p := fqn[:pos]
				if _, ok := out.Closure[p]; !ok {
					if c := oracle.closure(p); c != nil {
						out.Closure[p] = c
					}
				}
			}
		}
	}
	return out
}

func runC08Run(spec *c08Spec, r c08RunRound) c08RunOut {
	out := c08RunOut{ID: r.ID}
	// targets
	fset := token.NewFileSet()
	shared := importer.ForCompiler(fset, "source", nil)
	targets := make([]*hx.Target, len(r.Files))
	if len(r.Pkgs) > 0 {
		targets = targets[:0]
		for _, p := range r.Pkgs {
			ts, err := tidCheckPackage(p.Dir, p.Path, p.All, fset, importer.ForCompiler(fset, "source", nil))
			if err != nil {
				out.LoadErr = fmt.Sprintf("target package %s (%s): %v", p.Path, p.Dir, err)
				return out
			}
			for _, want := range p.Targets {
				for k, n := range p.All {
					if n == want {
						targets = append(targets, ts[k])
					}
				}
			}
		}
		if len(targets) != len(r.Files) {
			out.LoadErr = fmt.Sprintf("typeid round: %d targets for %d labels", len(targets), len(r.Files))
			return out
		}
	}
	for i, p := range r.Files {
		if len(r.Pkgs) > 0 {
			break
		}
		imp := shared
		if !r.SharedUniverse {
			imp = importer.ForCompiler(fset, "source", nil)
		}
		t, err := c08Target(spec.GoPath, p, imp, fset)
		if err != nil {
			out.LoadErr = fmt.Sprintf("target %s: %v", p, err)
			return out
		}
		targets[i] = t
	}
	// baseline: every file alone on its own fresh (cold) engine
	for _, t := range targets {
		e, err := c08LoadEngine(r.Rules)
		if err != nil {
			out.LoadErr = "load: " + err.Error()
			return out
		}
		out.Baseline = append(out.Baseline, c08Outcome(e, t, nil))
	}
	// concurrent runs on one cold engine
	e, err := c08LoadEngine(r.Rules)
	if err != nil {
		out.LoadErr = "load: " + err.Error()
		return out
	}
	pool := sync.Pool{New: func() interface{} { return ruleguard.NewRunnerState(e) }}
	out.Workers = make([][]string, len(r.Assign))
	var wg sync.WaitGroup
	start := make(chan struct{})
	for w := range r.Assign {
		wg.Add(1)
		go func(w int) {
			defer wg.Done()
			var own *ruleguard.RunnerState
			if r.StateMode == "own" {
				own = ruleguard.NewRunnerState(e)
			}
			<-start
			res := make([]string, 0, len(r.Assign[w]))
			for _, fi := range r.Assign[w] {
				switch r.StateMode {
				case "own":
					res = append(res, c08Outcome(e, targets[fi], own))
				case "pool":
					st := pool.Get().(*ruleguard.RunnerState)
					res = append(res, c08Outcome(e, targets[fi], st))
					pool.Put(st)
				default:
					res = append(res, c08Outcome(e, targets[fi], nil))
				}
			}
			out.Workers[w] = res
		}(w)
	}
	close(start)
	wg.Wait()
	for _, t := range targets {
		out.WarmAfter = append(out.WarmAfter, c08Outcome(e, t, nil))
	}
	if len(r.TidRules) > 0 {
		out.Narrow = c08NarrowRound(r, targets, &out)
	}
	return out
}

// c08NarrowRound: when a file of a typeid round got other reports than its lone run, look for a sequential
// replay "file A, then file B, one engine" with a single rule (atom) that shows the same dependence.
func c08NarrowRound(r c08RunRound, targets []*hx.Target, out *c08RunOut) *c08Narrow {
	split := func(s string) []string {
		if s == "" {
			return nil
		}
		return strings.Split(s, " | ")
	}
	probe, got := -1, ""
	for fi := range targets {
		if out.WarmAfter[fi] != out.Baseline[fi] {
			probe, got = fi, out.WarmAfter[fi]
			break
		}
	}
	for w := range r.Assign {
		for j, fi := range r.Assign[w] {
			if probe < 0 && out.Workers[w][j] != out.Baseline[fi] {
				probe, got = fi, out.Workers[w][j]
			}
		}
	}
	if probe < 0 {
		return nil
	}
	rs := &tidRuleSet{Src: r.Rules, Rules: r.TidRules}
	ids := tidDiffRules(split(out.Baseline[probe]), split(got))
	for a := range targets {
		if a == probe {
			continue
		}
		kinds, text, want, after, ok := tidNarrowRule(rs, ids, func(src string) (bool, []string, []string) {
			e1, err := c08LoadEngine(src)
			if err != nil {
				return false, nil, nil
			}
			lone := c08Outcome(e1, targets[probe], nil)
			e2, err := c08LoadEngine(src)
			if err != nil {
				return false, nil, nil
			}
			c08Outcome(e2, targets[a], nil)
			seq := c08Outcome(e2, targets[probe], nil)
			return lone != seq, split(lone), split(seq)
		})
		if ok {
			onlyLone, onlyAfter := tidLineDiff(want, after)
			return &c08Narrow{Earlier: r.Files[a], Probe: r.Files[probe], Kinds: kinds, Rule: text, Lone: onlyLone, After: onlyAfter}
		}
	}
	return nil
}

func c08AnalyzerRun(t *hx.Target) string {
	var diags []string
	pass := &analysis.Pass{
		Analyzer:   analyzer.Analyzer,
		Fset:       t.Fset,
		Files:      []*ast.File{t.File},
		Pkg:        t.Pkg,
		TypesInfo:  t.Info,
		TypesSizes: types.SizesFor("gc", runtime.GOARCH),
		Report: func(d analysis.Diagnostic) {
			s := fmt.Sprintf("%d %q", t.Fset.Position(d.Pos).Line, d.Message)
			for _, f := range d.SuggestedFixes {
				for _, e := range f.TextEdits {
					s += fmt.Sprintf(" fix[%d:%d]=%q", t.Fset.Position(e.Pos).Offset, t.Fset.Position(e.End).Offset, e.NewText)
				}
			}
			diags = append(diags, s)
		},
	}
	var res string
	func() {
		defer func() {
			if r := recover(); r != nil {
				res = "PANIC " + hx.PanicKind(r)
			}
		}()
		_, err := analyzer.Analyzer.Run(pass)
		if err != nil {
			res = "ERR " + err.Error()
		}
	}()
	if res != "" {
		return res
	}
	return strings.Join(diags, " | ")
}

func runC08Adapter(spec *c08Spec, r *c08AdapterRound) *c08AdapterOut {
	out := &c08AdapterOut{}
	rulesPath := filepath.Join(filepath.Dir(spec.GoPath), "adapter_rules.go")
	if err := os.WriteFile(rulesPath, []byte(r.Rules), 0o644); err != nil {
		out.Err = err.Error()
		return out
	}
	if err := analyzer.Analyzer.Flags.Set("rules", rulesPath); err != nil {
		out.Err = err.Error()
		return out
	}
	fset := token.NewFileSet()
	targets := make([]*hx.Target, len(r.Files))
	for i, p := range r.Files {
		t, err := c08Target(spec.GoPath, p, importer.ForCompiler(fset, "source", nil), fset)
		if err != nil {
			out.Err = fmt.Sprintf("target %s: %v", p, err)
			return out
		}
		targets[i] = t
	}
	out.Concurrent = make([][]string, len(r.Assign))
	var wg sync.WaitGroup
	start := make(chan struct{})
	for w := range r.Assign {
		wg.Add(1)
		go func(w int) {
			defer wg.Done()
			<-start
			for _, fi := range r.Assign[w] {
				out.Concurrent[w] = append(out.Concurrent[w], c08AnalyzerRun(targets[fi]))
			}
		}(w)
	}
	close(start)
	wg.Wait()
	for _, t := range targets {
		out.Sequential = append(out.Sequential, c08AnalyzerRun(t))
	}
	return out
}

func c08ChildMain(specPath string) int {
	b, err := os.ReadFile(specPath)
	if err != nil {
		fmt.Fprintln(os.Stderr, err)
		return 2
	}
	var spec c08Spec
	if err := json.Unmarshal(b, &spec); err != nil {
		fmt.Fprintln(os.Stderr, err)
		return 2
	}
	if spec.GoMaxProcs > 0 {
		runtime.GOMAXPROCS(spec.GoMaxProcs)
	}
	var out c08Out
	oracle := newC08Oracle()
	if spec.Adapter != nil {
		// first: the process-wide engine must still be unset
		out.Adapter = runC08Adapter(&spec, spec.Adapter)
	}
	for _, r := range spec.FT {
		out.FT = append(out.FT, runC08FT(&spec, r, oracle))
	}
	for _, r := range spec.Runs {
		out.Runs = append(out.Runs, runC08Run(&spec, r))
	}
	for _, r := range spec.Ctx {
		out.Ctx = append(out.Ctx, runC08Ctx(&spec, r))
	}
	enc := json.NewEncoder(os.Stdout)
	if err := enc.Encode(&out); err != nil {
		fmt.Fprintln(os.Stderr, err)
		return 2
	}
	return 0
}
