package main

import (
	"fmt"
	"go/token"
	"os"
	"runtime/debug"
	"strings"

	"github.com/quasilyte/go-ruleguard/ruleguard"
	"github.com/quasilyte/go-ruleguard/ruleguard/ir"
	"verifharness/hx"
)

// Shared machinery of the C07 suites added after the first product space (c07_top.go, c07_state.go).
// The oracle is the property's own and nothing else: Run returns without panicking; every delivered report has a
// non-nil node whose positions lie inside the analysed file, a non-nil group and, if present, a suggestion range
// inside the file.

// c07xCell is one rule: a pattern, an optional Where() filter and the payload chain.
type c07xCell struct {
	shape   string
	pattern string
	filter  string
	action  string
}

func (cl c07xCell) rule() string {
	rule := "\tm.Match(`" + cl.pattern + "`)"
	if cl.filter != "" {
		rule += ".Where(" + cl.filter + ")"
	}
	return rule + "." + cl.action
}

func (cl c07xCell) input() map[string]interface{} {
	return map[string]interface{}{"shape": cl.shape, "pattern": cl.pattern, "filter": cl.filter, "action": cl.action}
}

const c07xHeader = "package gorules\n\nimport (\n\t\"github.com/quasilyte/go-ruleguard/dsl\"\n\t\"github.com/quasilyte/go-ruleguard/dsl/types\"\n)\n\nvar _ = types.Identical\n" + c07Custom + "\n"

// c07xBatch converts the rules of all cells to IR with as few irconv runs as possible: the whole list in one rules
// file; when irconv rejects the file the list is halved until the offending rules are alone (those stay nil and are
// loaded with Engine.Load, which reports the error).
type c07xBatch struct {
	groups []*ir.RuleGroup
	files  []*ir.File
	runs   int
}

func c07xConvert(cells []c07xCell) *c07xBatch {
	b := &c07xBatch{groups: make([]*ir.RuleGroup, len(cells)), files: make([]*ir.File, len(cells))}
	var conv func(lo, hi int)
	conv = func(lo, hi int) {
		if lo >= hi {
			return
		}
		var sb strings.Builder
		sb.WriteString(c07xHeader)
		for i := lo; i < hi; i++ {
			fmt.Fprintf(&sb, "func c%d(m dsl.Matcher) {\n%s\n}\n", i, cells[i].rule())
		}
		b.runs++
		irf, err := func() (f *ir.File, err error) {
			defer func() {
				if r := recover(); r != nil {
					err = fmt.Errorf("irconv panics: %v", r)
				}
			}()
			return c17ConvertIR(sb.String())
		}()
		if err == nil {
			byName := map[string]int{}
			for gi := range irf.RuleGroups {
				byName[irf.RuleGroups[gi].Name] = gi
			}
			for i := lo; i < hi; i++ {
				if gi, ok := byName[fmt.Sprintf("c%d", i)]; ok {
					b.groups[i] = &irf.RuleGroups[gi]
					b.files[i] = irf
				}
			}
			return
		}
		if hi-lo == 1 {
			return
		}
		mid := (lo + hi) / 2
		conv(lo, mid)
		conv(mid, hi)
	}
	// chunks keep one irconv failure from costing log2(n) conversions of everything
	const chunk = 400
	for lo := 0; lo < len(cells); lo += chunk {
		hi := lo + chunk
		if hi > len(cells) {
			hi = len(cells)
		}
		conv(lo, hi)
	}
	return b
}

// load makes a fresh engine holding exactly the rule of cell i; viaLoad forces the Engine.Load path (source text)
// instead of LoadFromIR.
func (b *c07xBatch) load(cells []c07xCell, i int, viaLoad bool) (e *ruleguard.Engine, fromIR bool, err error) {
	e = ruleguard.NewEngine()
	cl := cells[i]
	if g := b.groups[i]; g != nil && !viaLoad {
		irf := b.files[i]
		f := &ir.File{PkgPath: irf.PkgPath, RuleGroups: []ir.RuleGroup{*g}, BundleImports: irf.BundleImports}
		if strings.Contains(cl.filter, ".Filter(") {
			f.CustomDecls = irf.CustomDecls
		}
		err = func() (err error) {
			defer func() {
				if r := recover(); r != nil {
					err = fmt.Errorf("PANIC %s at %s: %v", hx.PanicKind(r), hx.Frame(debug.Stack()), r)
				}
			}()
			return e.LoadFromIR(&ruleguard.LoadContext{Fset: token.NewFileSet()}, "rules.go", f)
		}()
		return e, true, err
	}
	src := c07xHeader + "func r(m dsl.Matcher) {\n" + cl.rule() + "\n}\n"
	return e, false, hx.LoadInto(e, "rules.go", src, nil)
}

// c07xLoadViolation records a panicking Load (the property is about Run, but the cell cannot be explored then; the
// first product space reports it the same way).
func c07xLoadViolation(res *hx.Result, cl c07xCell, lerr error) {
	if strings.HasPrefix(lerr.Error(), "PANIC") {
		f := strings.Fields(lerr.Error())
		res.Violate(hx.Violation{Signature: "load:panic " + f[1] + "@" + strings.TrimSuffix(f[3], ":"), What: "Load panics: " + clip(lerr.Error()),
			Input: cl.input(), Impl: clip(lerr.Error()), Spec: "error or success"})
	}
}

// c07xRun runs e on t under recover and applies the property's oracle to the outcome.  `in` describes the whole input
// (rule, file, context settings); it is what a replay file records.  ok is false when Run panicked or failed.
func c07xRun(res *hx.Result, suite string, cl c07xCell, e *ruleguard.Engine, t *hx.Target, opts hx.RunOpts, in map[string]interface{}) (rs []hx.Report, ok bool) {
	rs, pk, frame, rerr := hx.Run(e, t, opts)
	if rerr != nil {
		res.Errorf("c07 %s: Run returned an error: %v", suite, rerr)
		return nil, false
	}
	if pk != "" {
		res.Violate(hx.Violation{Signature: "run:" + pk + "@" + frame, What: "Run panics", Input: in, Impl: pk + " at " + frame, Spec: "no panic"})
		res.Dist(suite + ":run:PANIC")
		if os.Getenv("VERIF_C07_ALL") != "" {
			fmt.Fprintf(os.Stderr, "PANIC\t%s\t%s\t%s\t%s\t%s\t%s\t%v\n", suite, pk, frame, cl.pattern, cl.filter, cl.action, in["file"])
		}
		return rs, false
	}
	for _, r := range rs {
		bad := ""
		switch {
		case r.NodeNil:
			bad = "report:nil-node"
		case r.GroupNil:
			bad = "report:nil-group"
		case r.Pos < 0 || r.End < r.Pos || r.End > len(t.Src):
			bad = "report:position-outside-file"
		case r.HasSugg && (r.From < 0 || r.To < r.From || r.To > len(t.Src)):
			bad = "report:suggestion-outside-file"
		}
		if bad != "" {
			res.Violate(hx.Violation{Signature: bad + "@" + cl.shape, What: "malformed report " + r.String(), Input: in, Impl: r.String(), Spec: "non-nil node, positions inside the file"})
			res.Dist(suite + ":run:MALFORMED-REPORT")
			if os.Getenv("VERIF_C07_ALL") != "" {
				fmt.Fprintf(os.Stderr, "MALFORMED\t%s\t%s\t%s\t%s\t%s\t%s\t%v\n", suite, bad, r.String(), cl.pattern, cl.filter, cl.action, in["file"])
			}
		}
	}
	res.Dist(suite + ":run:ok")
	// the same run with the debug settings of the context (Debug = the rule's group, so that every rejection goes through
	// rulesRunner.reject and prints its captures; DebugImports): no panic, the same reports
	c07DebugTick++
	if c07Thorough || c07DebugTick%3 == 0 {
		var out []string
		dopts := opts
		dopts.Debug, dopts.DebugImports, dopts.DebugOut = "r", true, &out
		if gs := e.LoadedGroups(); len(gs) > 0 {
			dopts.Debug = gs[0].Name
		}
		if c07DebugTick%5 == 0 {
			dopts.Debug = "nosuchgroup"
		}
		drs, dpk, dframe, derr := hx.Run(e, t, dopts)
		din := map[string]interface{}{}
		for k, v := range in {
			din[k] = v
		}
		din["Debug"], din["DebugImports"] = dopts.Debug, true
		switch {
		case derr != nil:
			res.Errorf("c07 %s: Run with debug settings returned an error: %v", suite, derr)
		case dpk != "":
			res.Violate(hx.Violation{Signature: "run:" + dpk + "@" + dframe + ":debug-settings", What: "Run panics when RunContext.Debug / DebugPrint / DebugImports are set", Input: din, Impl: dpk + " at " + dframe, Spec: "no panic"})
			res.Dist(suite + ":debug-run:PANIC")
		case c07ReportsKey(drs) != c07ReportsKey(rs):
			res.Violate(hx.Violation{Signature: "run:debug-settings-change-the-reports@" + cl.shape, What: "the reports differ when the debug settings are on", Input: din, Impl: c07ReportsKey(drs), Spec: c07ReportsKey(rs)})
			res.Dist(suite + ":debug-run:DIFFERENT-REPORTS")
		default:
			res.Dist(suite + ":debug-run:ok")
			if c07Explained(out) {
				res.Dist(suite + ":debug-run:explained-a-rejection")
			}
		}
	}
	return rs, true
}

var (
	c07Thorough  bool
	c07DebugTick int
)

func c07ReportsKey(rs []hx.Report) string {
	var sb strings.Builder
	for _, r := range rs {
		sb.WriteString(r.String())
		sb.WriteString("\n")
	}
	return sb.String()
}

func c07xInput(cl c07xCell, t *c07xTarget, trunc int, gover, state string) map[string]interface{} {
	in := cl.input()
	in["file"] = t.label
	in["file_source"] = string(t.t.Src)
	in["TruncateLen"] = trunc
	in["GoVersion"] = gover
	in["state"] = state
	return in
}

// c07xTarget is an analysed file with a label for the evidence.
type c07xTarget struct {
	label string
	t     *hx.Target
}

func c07xParse(label, name, src string, mem bool) (*c07xTarget, error) {
	var t *hx.Target
	var err error
	if mem {
		t, err = hx.ParseTargetMem(name, src)
	} else {
		t, err = hx.ParseTarget(name, src)
	}
	if err != nil {
		return nil, fmt.Errorf("target %s: %v\n%s", label, err, src)
	}
	return &c07xTarget{label: label, t: t}, nil
}

func c07xReportsKey(rs []hx.Report) string {
	var sb strings.Builder
	for _, r := range rs {
		sb.WriteString(r.String())
		sb.WriteString(" kind=" + r.NodeKind)
		fmt.Fprintf(&sb, " slice=%d/%d\n", r.SliceKind, r.SliceLen)
	}
	return sb.String()
}

func c07Explained(out []string) bool {
	for _, s := range out {
		if strings.Contains(s, "rejected by") {
			return true
		}
	}
	return false
}
