package main

// C05, loader half (lean/Rg/Model/IRLoad.lean, lean/Rg/Props/C05Load.lean, lean/Drv/IRLoad.lean).
//
// Suites
//   load-model   ir.File values — what the real irconv produced for the fixture and generated rules files of the
//                e2e suite, plus values of C06's IR generator (1/3 malformed) — sent *whole* (every field, the
//                nil/empty bit of every slice: the encoding of the printer suites) to the Lean model
//                `loadFile o genTags (toLoaderFile f)`; its outcome class (accepted alternatives with their
//                buckets / error line / panic kind) must equal the real LoadFromIR's.  Oracles: C06's plumbing
//                (c06Oracles.render), with the type-string / interface / method answers recomputed under the
//                group's Import()s.
//   preload      the same values through the model of the whole precompiled path, `Comp.precompiledLoad` (print,
//                read the literal back, load), against the real path: irprint.File -> evaluate the text ->
//                LoadFromIR (the statement of C05.precompiled_load_eq_ir_load, evaluated on the implementation).
//   nil-empty    C05.load_respects_normalize on the real loader: LoadFromIR of the value, of the value with every
//                empty slice nil and of the value with every nil slice empty-but-non-nil must have the same outcome
//                (for converted files also the same LoadedGroups() and the same reports on the generated target);
//                a difference is narrowed to the kind of slice that causes it and reported as a violation.

import (
	"fmt"
	"go/ast"
	"go/parser"
	"go/token"
	"math/rand"
	"reflect"
	"runtime"
	"runtime/debug"
	"sort"
	"strings"
	"sync"
	"sync/atomic"

	"github.com/quasilyte/go-ruleguard/ruleguard"
	"github.com/quasilyte/go-ruleguard/ruleguard/ir"
	"github.com/quasilyte/go-ruleguard/ruleguard/typematch"
	"github.com/quasilyte/stdinfo"
	"verifharness/hx"
)

// c05RealLoad runs the real LoadFromIR on a fresh engine and canonicalises the outcome like `c05load`:
// one item per (alternative, bucket), sorted.  msg = the error text when the error carries no `rules.go:<line>:`.
func c05RealLoad(f *ir.File) (e *ruleguard.Engine, out, frame string) {
	e = ruleguard.NewEngine()
	var err error
	func() {
		defer func() {
			if r := recover(); r != nil {
				out = "panic " + hx.PanicKind(r)
				frame = hx.Frame(debug.Stack())
			}
		}()
		err = e.LoadFromIR(&ruleguard.LoadContext{Fset: token.NewFileSet()}, "rules.go", f)
	}()
	if out != "" {
		return e, out, frame
	}
	if err != nil {
		if m := errLineRE.FindStringSubmatch(err.Error()); m != nil {
			return e, "err " + m[1], ""
		}
		return e, "err ?: " + err.Error(), ""
	}
	byTag, comment := ruleguard.VerifBuckets(e)
	var items []string
	for t, rs := range byTag {
		for _, r := range rs {
			items = append(items, fmt.Sprintf("%s:%d", r, t))
		}
	}
	for _, r := range comment {
		items = append(items, r+":c")
	}
	sort.Strings(items)
	return e, "ok " + strings.Join(items, " "), ""
}

// c05DeclFuncs: the names of the functions `compileFilterFuncs` compiles from the custom declarations.
func c05DeclFuncs(decls []string) []string {
	var out []string
	for _, d := range decls {
		f, err := parser.ParseFile(token.NewFileSet(), "decl.go", "package gorules\n"+d+"\n", 0)
		if err != nil {
			continue
		}
		for _, decl := range f.Decls {
			if fd, ok := decl.(*ast.FuncDecl); ok && fd.Recv == nil {
				out = append(out, fd.Name.Name)
			}
		}
	}
	return out
}

type c05ImportProbe struct {
	cache map[string]int
}

// leaf asks the real loader about one leaf inside a group with the given imports (cf. c06Oracles.probeLeaf).
func (p *c05ImportProbe) leaf(imports []ir.PackageImport, op ir.FilterOp, s string) int {
	key := fmt.Sprintf("%v/%d/%s", imports, op, s)
	if v, ok := p.cache[key]; ok {
		return v
	}
	f := &ir.File{PkgPath: "gorules", RuleGroups: []ir.RuleGroup{{Line: 1, Name: "probe", MatcherName: "m", Imports: imports, Rules: []ir.Rule{{
		Line: 2, SyntaxPatterns: []ir.PatternString{{Line: 2, Value: "f($x)"}}, ReportTemplate: "r",
		WhereExpr: ir.FilterExpr{Line: 2, Op: op, Value: "x", Args: []ir.FilterExpr{{Line: 2, Op: ir.FilterStringOp, Value: s}}},
	}}}}}
	_, out, _ := c05RealLoad(f)
	v := 1
	switch {
	case strings.HasPrefix(out, "ok"):
		v = 0
	case strings.HasPrefix(out, "err"):
		// the two messages the model files under class 2 (see c06Oracles.probeLeaf)
		e := ruleguard.NewEngine()
		err := e.LoadFromIR(&ruleguard.LoadContext{Fset: token.NewFileSet()}, "probe.go", f)
		if err != nil && (strings.Contains(err.Error(), "can't convert") || strings.Contains(err.Error(), "can't resolve HasMethod")) {
			v = 2
		}
	}
	p.cache[key] = v
	return v
}

// c05ImportOverrides: for a file whose groups use Import(), the sections of the oracles that depend on the
// import table (typematch / type strings / interfaces / method references), computed under each group's imports.
// conflict = one string has different answers in two groups (the model's oracles are per file).
func (p *c05ImportProbe) overrides(f *ir.File) (sections string, conflict bool) {
	any := false
	for _, g := range f.RuleGroups {
		if len(g.Imports) != 0 {
			any = true
		}
	}
	if !any {
		return "", false
	}
	ans := map[string]int{}
	var order []string
	put := func(kind, s string, v int) {
		k := kind + "\x00" + s
		if old, ok := ans[k]; ok {
			if old != v {
				conflict = true
			}
			return
		}
		ans[k] = v
		order = append(order, k)
	}
	for gi := range f.RuleGroups {
		g := &f.RuleGroups[gi]
		itab := typematch.NewImportsTab(stdinfo.PathByName)
		itab.EnterScope()
		for _, im := range g.Imports {
			itab.Load(im.Name, im.Path)
		}
		var walk func(e ir.FilterExpr)
		walk = func(e ir.FilterExpr) {
			if len(e.Args) > 0 {
				if s, ok := e.Args[0].Value.(string); ok {
					switch e.Op {
					case ir.FilterRootSinkTypeIsOp, ir.FilterVarTypeIsOp, ir.FilterVarTypeUnderlyingIsOp:
						ctx := typematch.Context{Itab: itab}
						v := 0
						if c06Try(func() bool { _, err := typematch.Parse(&ctx, s); return err == nil }) {
							v = 1
						}
						put("tm", s, v)
					case ir.FilterVarTypeConvertibleToOp, ir.FilterVarTypeAssignableToOp:
						put("tfs", s, p.leaf(g.Imports, ir.FilterVarTypeConvertibleToOp, s))
					case ir.FilterVarTypeImplementsOp:
						put("iface", s, p.leaf(g.Imports, ir.FilterVarTypeImplementsOp, s))
					case ir.FilterVarTypeHasMethodOp:
						put("fref", s, p.leaf(g.Imports, ir.FilterVarTypeHasMethodOp, s))
					}
				}
			}
			for _, a := range e.Args {
				walk(a)
			}
		}
		for _, r := range g.Rules {
			walk(r.WhereExpr)
		}
	}
	var tm, tfs, iface, fref []string
	for _, k := range order {
		kind, s := k[:strings.IndexByte(k, 0)], k[strings.IndexByte(k, 0)+1:]
		v := ans[k]
		switch kind {
		case "tm":
			if v == 1 {
				tm = append(tm, hx.HexS(s))
			}
		case "tfs":
			tfs = append(tfs, fmt.Sprintf("(%s %d)", hx.HexS(s), v))
		case "iface":
			if v == 0 {
				iface = append(iface, hx.HexS(s))
			}
		case "fref":
			fref = append(fref, fmt.Sprintf("(%s %d)", hx.HexS(s), v))
		}
	}
	j := func(name string, xs []string) string { return "(" + name + " " + strings.Join(xs, " ") + ")" }
	return strings.Join([]string{j("tm", tm), j("tfs", tfs), j("iface", iface), j("fref", fref)}, " "), conflict
}

// c05SetSlices returns a deep copy of f in which every empty slice of the kinds selected by `which` (nil =
// every kind) is nil (empty=false) or empty-but-non-nil (empty=true).  Kinds = the field names.
func c05SetSlices(f *ir.File, empty bool, which map[string]bool) *ir.File {
	var walk func(v reflect.Value, field string) reflect.Value
	walk = func(v reflect.Value, field string) reflect.Value {
		switch v.Kind() {
		case reflect.Slice:
			if v.Len() == 0 {
				if which != nil && !which[field] {
					return v
				}
				if empty {
					return reflect.MakeSlice(v.Type(), 0, 0)
				}
				return reflect.Zero(v.Type())
			}
			out := reflect.MakeSlice(v.Type(), v.Len(), v.Len())
			for i := 0; i < v.Len(); i++ {
				out.Index(i).Set(walk(v.Index(i), field))
			}
			return out
		case reflect.Struct:
			out := reflect.New(v.Type()).Elem()
			for i := 0; i < v.NumField(); i++ {
				out.Field(i).Set(walk(v.Field(i), v.Type().Field(i).Name))
			}
			return out
		}
		return v
	}
	out := walk(reflect.ValueOf(*f), "").Interface().(ir.File)
	return &out
}

// c05MutateIR returns a deep copy of f with one defect (nil when f has no rule), and the defect's name.
func c05MutateIR(r *rand.Rand, f *ir.File) (*ir.File, string) {
	m := cloneFile(f)
	type loc struct{ g, r int }
	var rules []loc
	for gi := range m.RuleGroups {
		for ri := range m.RuleGroups[gi].Rules {
			rules = append(rules, loc{gi, ri})
		}
	}
	if len(rules) == 0 {
		return nil, ""
	}
	at := rules[r.Intn(len(rules))]
	rule := &m.RuleGroups[at.g].Rules[at.r]
	// the nodes of the rule's Where clause, in visiting order
	var nodes []*ir.FilterExpr
	var walk func(e *ir.FilterExpr)
	walk = func(e *ir.FilterExpr) {
		nodes = append(nodes, e)
		for i := range e.Args {
			walk(&e.Args[i])
		}
	}
	if rule.WhereExpr.IsValid() {
		walk(&rule.WhereExpr)
	}
	pick := func(ok func(e *ir.FilterExpr) bool) *ir.FilterExpr {
		var c []*ir.FilterExpr
		for _, n := range nodes {
			if ok(n) {
				c = append(c, n)
			}
		}
		if len(c) == 0 {
			return nil
		}
		return c[r.Intn(len(c))]
	}
	for try := 0; try < 8; try++ {
		switch r.Intn(10) {
		case 0:
			rule.LocationVar = "nosuchvar"
			return m, "at-unbound"
		case 1:
			if len(rule.SyntaxPatterns) > 0 {
				rule.SyntaxPatterns = append(rule.SyntaxPatterns, ir.PatternString{Line: rule.Line + 1, Value: "f("})
				return m, "pattern-unparsable"
			}
		case 2:
			if n := pick(func(e *ir.FilterExpr) bool { _, ok := e.Value.(string); return e.HasVar() && ok }); n != nil {
				n.Value = "zz"
				return m, "where-unbound"
			}
		case 3:
			if rule.DoFuncName == "" {
				rule.DoFuncName = "missingFunc"
				return m, "do-unknown"
			}
		case 4:
			if n := pick(func(e *ir.FilterExpr) bool { return len(e.Args) > 0 }); n != nil {
				n.Args = n.Args[:len(n.Args)-1]
				return m, "arg-dropped"
			}
		case 5:
			if n := pick(func(e *ir.FilterExpr) bool { _, ok := e.Value.(string); return ok }); n != nil {
				n.Value = int64(3)
				return m, "value-not-a-string"
			}
		case 6:
			if len(rule.SyntaxPatterns) > 0 && len(rule.CommentPatterns) == 0 {
				rule.CommentPatterns, rule.SyntaxPatterns = rule.SyntaxPatterns, nil
				return m, "syntax-as-comment"
			}
		case 7:
			if n := pick(func(e *ir.FilterExpr) bool { return len(e.Args) == 0 }); n != nil {
				n.Op = []ir.FilterOp{ir.FilterInvalidOp, ir.FilterOp(77), ir.FilterFilterFuncRefOp}[r.Intn(3)]
				return m, "leaf-op"
			}
		case 8:
			if len(rule.SyntaxPatterns) > 0 {
				rule.SyntaxPatterns[r.Intn(len(rule.SyntaxPatterns))].Value = []string{"$x", "$*xs", "", "func $f() {}; func $g() {}"}[r.Intn(4)]
				return m, "pattern-untaggable"
			}
		case 9:
			if n := pick(func(e *ir.FilterExpr) bool {
				return len(e.Args) > 0 && e.Args[0].Op == ir.FilterStringOp && !e.IsBinaryExpr()
			}); n != nil {
				n.Args[0].Value = []string{"", "(", "no such thing", "nosuchpkg.T"}[r.Intn(4)]
				n.Args[0].Line += 7 // the loader reports some of these at the argument's line
				return m, "string-argument"
			}
		}
	}
	return nil, ""
}

var c05SliceKinds = []string{"RuleGroups", "CustomDecls", "BundleImports", "DocTags", "Imports", "Rules", "SyntaxPatterns", "CommentPatterns", "Args"}

type c05LoadCase struct {
	name   string
	origin string // irconv | irconv-mutant | generated-ir
	f      *ir.File
}

// c05Observe: what the nil-empty suite compares: the load outcome, and for files that loaded the groups and the
// reports on the generated target.
func c05Observe(f *ir.File, target *hx.Target, deep bool) (obs, out, frame string) {
	e, out, frame := c05RealLoad(f)
	obs = out
	if frame != "" {
		obs += " @" + frame
	}
	if !deep || !strings.HasPrefix(out, "ok") {
		return obs, out, frame
	}
	return obs + "\n-- groups\n" + c05Groups(e) + "\n-- reports\n" + c05RunAll(e, []*hx.Target{target}, ""), out, frame
}

// c05LoadReal: everything the suites need from the real code for one value (computed in parallel, one target per worker).
type c05LoadReal struct {
	sexp        string
	ok          bool
	real, frame string
	base        string
	variant     [2]string // every empty slice nil / every nil slice empty
	narrowed    [2]string // the slice kind that makes the difference ("" = no difference)
	text, pre   string
}

func c05LoadRealOf(f *ir.File, target *hx.Target, deep bool) *c05LoadReal {
	o := &c05LoadReal{}
	o.sexp, o.ok = encFile(f)
	if !o.ok || len(f.BundleImports) != 0 {
		return o
	}
	o.base, o.real, o.frame = c05Observe(f, target, deep)
	for i, empty := range []bool{false, true} {
		o.variant[i], _, _ = c05Observe(c05SetSlices(f, empty, nil), target, deep)
		if o.variant[i] == o.base {
			continue
		}
		o.narrowed[i] = "several"
		for _, k := range c05SliceKinds {
			if got, _, _ := c05Observe(c05SetSlices(f, empty, map[string]bool{k: true}), target, deep); got != o.base {
				o.narrowed[i] = k
				break
			}
		}
	}
	var pres string
	o.text, pres = printIR(f)
	o.pre = "noliteral"
	if pres == "ok" {
		if ev, err := evalIRText(o.text); err == nil {
			_, o.pre, _ = c05RealLoad(ev)
		}
	}
	return o
}

func c05LoadSuites(c *Ctx, files []e2eFile) error {
	res := c.Res
	var cases []c05LoadCase
	// converted files: all of them in the quick tier; in the thorough tier every fixture and an even sample of the
	// rest (a case costs 5 LoadFromIR calls on fresh engines: ~50 ms)
	maxConv, nGen := len(files), 250
	if c.Thorough {
		maxConv, nGen = 900, 700
	}
	step := 1
	if len(files) > maxConv {
		step = (len(files) + maxConv - 1) / maxConv
	}
	mrng := hx.Rng(c.Seed, "c05-load-mutants")
	for i, ef := range files {
		if i%step != 0 && !strings.HasPrefix(ef.name, "fixture:") {
			continue
		}
		cases = append(cases, c05LoadCase{name: ef.name, origin: "irconv", f: ef.irfile})
		// the same value with one defect: the loader's error paths on realistically shaped IR
		if m, kind := c05MutateIR(mrng, ef.irfile); m != nil {
			cases = append(cases, c05LoadCase{name: ef.name + "+" + kind, origin: "irconv-mutant", f: m})
			res.Dist("load:mutant:" + kind)
		}
	}
	rng := hx.Rng(c.Seed, "c05-load-ir")
	for i := 0; i < nGen; i++ {
		g := &c06Gen{r: rng, malformed: i%3 == 2}
		f, _ := g.file()
		// the nil/empty bits of the generator's values are whatever its code happens to build: shake them
		switch rng.Intn(3) {
		case 0:
			f = c05SetSlices(f, true, nil)
		case 1:
			f = c05SetSlices(f, false, nil)
		}
		cases = append(cases, c05LoadCase{name: fmt.Sprintf("generated-ir#%d", i), origin: "generated-ir", f: f})
	}

	// phase 1 (parallel): the real code
	reals := make([]*c05LoadReal, len(cases))
	nw := runtime.NumCPU()
	if nw > 12 {
		nw = 12
	}
	var wg sync.WaitGroup
	next := int64(-1)
	var perr error
	var pmu sync.Mutex
	for w := 0; w < nw; w++ {
		wg.Add(1)
		go func() {
			defer wg.Done()
			target, err := c05ParseTarget("target.go", c05GenTarget)
			if err != nil {
				pmu.Lock()
				perr = err
				pmu.Unlock()
				return
			}
			for {
				i := int(atomic.AddInt64(&next, 1))
				if i >= len(cases) {
					return
				}
				reals[i] = c05LoadRealOf(cases[i].f, target, cases[i].origin == "irconv")
			}
		}()
	}
	wg.Wait()
	if perr != nil {
		return perr
	}

	// phase 2 (sequential): oracles, records, the model
	orc := &c06Oracles{probeCache: map[string]int{}}
	probe := &c05ImportProbe{cache: map[string]int{}}
	var ops, impl, pops, pimpl []string
	var inputs, pinputs []interface{}
	for ci, cs := range cases {
		f := cs.f
		o := reals[ci]
		sexp, ok := o.sexp, o.ok
		if !ok {
			res.Dist("load:" + cs.origin + ":outside-the-mirror") // a Value of another dynamic type (malformed stream)
			continue
		}
		if len(f.BundleImports) != 0 {
			res.Dist("load:" + cs.origin + ":skipped:bundle-imports") // imported rule sets are outside Loader.loadFile
			continue
		}
		real, frame := o.real, o.frame
		cls := strings.Fields(real)[0]
		res.Dist("load:" + cs.origin + ":" + cls)
		in := map[string]interface{}{"origin": cs.name, "ir": sexp, "frame": frame}
		nontrivial := len(f.RuleGroups) > 0

		// ---- nil-empty: on the real loader ----
		base := o.base
		for vi, empty := range []bool{false, true} {
			res.Count("nil-empty", fmt.Sprint(empty)+sexp, nontrivial)
			got := o.variant[vi]
			if got == base {
				continue
			}
			kind := o.narrowed[vi]
			to := "nil"
			if empty {
				to = "empty-but-non-nil"
			}
			res.Violate(hx.Violation{Signature: "LoadFromIR:nil-vs-empty:" + kind + ":" + to,
				What:  "LoadFromIR behaves differently when every empty " + kind + " slice of the ir.File is made " + to + ": " + clip(firstDiff(base, got)),
				Input: in, Impl: clip(got), Spec: clip(base)})
		}

		// ---- the model ----
		if strings.HasPrefix(real, "err ?:") {
			// no rules.go:<line>: — a custom declaration that does not compile (`compileFilterFuncs`: an oracle of the model)
			res.Dist("load:" + cs.origin + ":unlocated:" + c05ErrClass(fmt.Errorf("%s", strings.TrimPrefix(real, "err ?: "))))
			continue
		}
		oracles := orc.render(f, func(string) bool { return true }, c05DeclFuncs(f.CustomDecls))
		over, conflict := probe.overrides(f)
		if conflict {
			res.Dist("load:" + cs.origin + ":skipped:per-group-oracle-conflict")
			continue
		}
		if over != "" {
			oracles = "(oracles " + over + " " + strings.TrimPrefix(oracles, "(oracles ")
			res.Dist("load:" + cs.origin + ":with-group-imports")
		}
		arg := "(" + sexp + " " + oracles + ")"
		ops = append(ops, "c05load 1 "+arg)
		impl = append(impl, real)
		inputs = append(inputs, in)
		res.Count("load-model", sexp, nontrivial)
		if len(ops) == 1 {
			res.Sample(map[string]interface{}{"op": clip(ops[0]), "impl": real})
		}

		// ---- the precompiled path ----
		text, pre := o.text, o.pre
		res.Dist("preload:" + cs.origin + ":" + strings.Fields(pre)[0])
		pops = append(pops, "c05preload 1 "+arg)
		pimpl = append(pimpl, pre)
		pinputs = append(pinputs, map[string]interface{}{"origin": cs.name, "ir": sexp, "printed": clip(text)})
		res.Count("preload", sexp, nontrivial)
		if pre != "noliteral" && pre != real {
			// the property itself, on the implementation (both sides real): LoadFromIR(read(print(f))) vs LoadFromIR(f)
			res.Violate(hx.Violation{Signature: "LoadFromIR:printed-literal-loads-differently:" + strings.Fields(real)[0] + "->" + strings.Fields(pre)[0],
				What:  "LoadFromIR of the value the printed literal denotes differs from LoadFromIR of the value that was printed",
				Input: pinputs[len(pinputs)-1], Impl: clip(pre), Spec: clip(real)})
		}
	}
	if err := res.Compare(c.Drv, "load-model", ops, impl, inputs); err != nil {
		return err
	}
	return res.Compare(c.Drv, "preload", pops, pimpl, pinputs)
}
