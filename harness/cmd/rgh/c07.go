package main

import (
	"fmt"
	"go/token"
	"os"
	"path/filepath"
	"runtime/debug"
	"strings"

	"github.com/quasilyte/go-ruleguard/ruleguard"
	"github.com/quasilyte/go-ruleguard/ruleguard/ir"
	"verifharness/hx"
)

func init() { register("C07", runC07) }

// capture shapes: a pattern that binds $x (and sometimes $y) to a node of a given shape
type c07Shape struct {
	name    string
	pattern string
	hasY    bool
}

var c07Shapes = []c07Shape{
	{"expr", "probe($x)", false},
	{"two-exprs", "probe2($x, $y)", true},
	{"expr-list", "probeN($*x)", false},
	{"stmt", "if cond { $x }", false},
	{"stmt-list", "for { $*x }", false},
	{"typed-nil-results", "func $_() $x { $*_ }", false},
	{"type-expr", "var $_ $x", false},
	{"param-name", "func($x int) {}", false},
	{"field-list", "func $_($*x) {}", false},
	{"assign-lhs", "$x = $y", true},
	{"composite-elem", "T{$x, $y}", true},
	{"selector", "$x.f", false},
	{"call-fun", "$x()", false},
	{"decl-list", "func $x() {}; func $y() {}", true},
	{"expr-string-call", "probeS($x)", false},
	{"range-key-value", "for $x, $y := range $_ { $*_ }", true},
	{"type-switch-guard", "switch $x := $y.(type) { $*_ }", true},
	{"multi-assign", "$x, $y = $_", true},
	{"generic-call", "gen[$x]($y)", true},
	{"key-value", "$x: $y", true},
	// an optional `$*` part that is absent in the matched statement is captured as a nil interface value
	{"optional-if-init", "if $*x; $y { $*_ }", true},
	{"optional-switch-init", "switch $*x; $y { $*_ }", true},
	{"optional-else", "if $y { $*_ } else $*x", true},
}

// filters over $x (and $y where the shape has it); `%s` is the variable name
var c07VarFilters = []string{
	`m["%s"].Type.Is("int")`, `m["%s"].Type.Is("[]$t")`, `m["%s"].Type.Is("errors.error")`, `m["%s"].Type.Is("[]io.error")`, `m["%s"].Type.Is("func() fmt.string")`, `m["%s"].Type.Underlying().Is("io.any")`, `m["%s"].Type.Underlying().Is("struct{$*_}")`,
	`m["%s"].Type.ConvertibleTo("int")`, `m["%s"].Type.AssignableTo("interface{}")`, `m["%s"].Type.Implements("error")`,
	`m["%s"].Type.HasMethod("io.Reader.Read")`, `m["%s"].Type.HasPointers()`,
	`m["%s"].Type.OfKind("integer")`, `m["%s"].Type.OfKind("untyped")`, `m["%s"].Type.OfKind("int")`, `m["%s"].Type.OfKind("signed")`, `m["%s"].Type.Underlying().OfKind("numeric")`,
	`m["%s"].Type.Size > 4`, `m["%s"].Type.Size == 8`, `m["%s"].Comparable`, `m["%s"].Addressable`,
	`m["%s"].Const`, `m["%s"].ConstSlice`, `m["%s"].Value.Int() > 1`, `m["%s"].Value.Int() == 2`, `m["%s"].Pure`,
	`m["%s"].Object.Is("Var")`, `m["%s"].Object.Is("Func")`, `m["%s"].Object.Is("TypeName")`, `m["%s"].Object.IsGlobal()`, `m["%s"].Object.IsVariadicParam()`,
	`m["%s"].Node.Is("Ident")`, `m["%s"].Node.Is("CallExpr")`, `m["%s"].Node.Is("BasicLit")`,
	`m["%s"].Text == "x"`, `m["%s"].Text != "probe"`, `m["%s"].Text.Matches("^[a-z]")`, `m["%s"].Line > 3`, `m["%s"].Line == 10`,
	`m["%s"].Contains("$_ + $_")`, `m["%s"].Contains("probe($_)")`, `m["%s"].Filter(isSmall)`, `m["%s"].Filter(hasElem)`,
	`!m["%s"].Pure`, `m["%s"].Const || m["%s"].Pure`,
}

var c07PairFilters = []string{
	`m["x"].Type.IdenticalTo(m["y"])`, `m["x"].Type.Size == m["y"].Type.Size`, `m["x"].Line == m["y"].Line`,
	`m["x"].Text == m["y"].Text`, `m["x"].Value.Int() < m["y"].Value.Int()`,
}

var c07RootFilters = []string{
	`m["$$"].Node.Parent().Is("ExprStmt")`, `m["$$"].Node.Parent().Is("BlockStmt")`, `m["$$"].SinkType.Is("int")`, `m["$$"].SinkType.Is("interface{}")`,
	`m["$$"].Type.Is("int")`, `m["$$"].Text.Matches("probe")`, `m["$$"].Pure`, `m["$$"].Line > 0`, `m["$$"].Contains("$_($*_)")`,
	`m.File().Imports("fmt")`, `m.File().Name.Matches("c07")`, `m.File().PkgPath.Matches("^p")`, `m.Deadcode()`,
	`m.GoVersion().GreaterEqThan("1.18")`, `m.GoVersion().LessThan("1.10")`, `m.GoVersion().Eq("1.16")`,
}

const c07Custom = `
func isSmall(ctx *dsl.VarFilterContext) bool {
	return ctx.SizeOf(ctx.Type) <= 8
}

func isErr(ctx *dsl.VarFilterContext) bool {
	return types.Identical(ctx.Type, ctx.GetType("error")) || types.Implements(ctx.Type, ctx.GetInterface("error"))
}

func hasElem(ctx *dsl.VarFilterContext) bool {
	s := types.AsSlice(ctx.Type.Underlying())
	return s != nil && types.Identical(s.Elem(), ctx.GetType("int"))
}
`

const c07Target = `package p

import "fmt"

type T struct {
	a, b int
	f    func()
}

type I interface{ M() }

var cond bool
var global = 10

func probe(...interface{}) int  { return 0 }
func probe2(a, b interface{})   {}
func probeN(xs ...interface{})  {}
func sink(int)                  {}
func probeS(...interface{}) string { return "" }
func gen[T any](v T) T          { return v }
func pair() (int, error)        { return 0, nil }
func mk(int) func()             { return nil }
func noResults()                { var _ []int; var _ T }
func withResults() (int, error) { return 0, nil }
func variadic(xs ...int)        { probe(xs); probeN(xs) }

func body(x int, s []int, t T, p *T, i I, e error) (r int) {
	probe(x)
	probe(1 + 2)
	probe("str")
	probe(nil)
	probe(s[0])
	probe(t.a)
	probe(p.f)
	probe(fmt.Sprint)
	probe(func() {})
	probe([]int{1, 2})
	probe(T{1, 2, nil})
	probe(T{a: 1})
	probe(int64(x))
	probe(<-make(chan int))
	probe(i)
	probe(e)
	probe(global)
	probe(&t)
	probe2(x, x)
	probe2(1, "a")
	probe2(s, s[1:])
	probeN()
	probeN(1)
	probeN(x, 2, "three")
	if cond {
		x++
	}
	if cond {
		return 1
	}
	for {
		x = 2
		probe(x)
	}
	for {
	}
	var v1 int
	var v2 []T
	_ = func(q int) {}
	x = 5
	t.a = x
	s[0] = x
	_ = T{1, 2, nil}
	t.f()
	mk(x)()
	sink(probe(x))
	_ = T{probe(1), 2, nil}
	_ = []int{probe(2)}
	_ = map[string]int{"k": probe(3)}
	_ = map[int]string{probe(4): "v"}
	_ = s[probe(5)]
	variadic(probe(6), probe(7))
	var buf []byte
	buf = append(buf, probeS(1)...)
	buf = append(buf, probeS(x)[0])
	_ = append([]string{}, probeS(2))
	for k, v := range s {
		probe(k, v)
	}
	for i := range s {
		probe(i)
	}
	switch v := i.(type) {
	case nil:
		probe(v)
	case I:
		probe(v)
	}
	var n int
	n, _ = pair()
	_, e = pair()
	_ = gen[int](n)
	_ = gen[[]string](nil)
	_ = map[string]int{"k": 1}
	_ = [...]int{2: probe(8)}
	_ = T{a: probe(9)}
	sink(probe(1))
	x = probe(3)
	var _ int = probe(4)
	return probe(5) + v1 + len(v2)
}

type Box[E any] struct{ v E }

type Num interface{ ~int | ~float64 }

// captures whose types mention type parameters, bare and inside every composite constructor
func generic[E any, N Num](b Box[E], a [2]E, st struct{ x E }, pe *E, sl []E, e E, n N, m map[string]E, f func(E) N, ch chan E) {
	probe(b)
	probe(a)
	probe(st)
	probe(pe)
	probe(sl)
	probe(e)
	probe(n)
	probe(m)
	probe(f)
	probe(ch)
	probe(b.v)
	probe(n + 1)
	probe(Box[[2]E]{})
	probe2(b, a)
	probe2(e, n)
	probe2(st, b)
	probeN(b, a, e)
}
`

// predeclared identifiers shadowed by the package: filters that name `error`, `int32`, `any` must
// still not crash when a capture has the package's own type of that name
const c07Shadow = `package q

type error struct{ msg string }
type int32 string
type any = int

func (error) Error() string { return "" }

func probe(...interface{}) int { return 0 }
func probe2(a, b interface{})   {}

func g(e error, i int32, a any, p *error) {
	probe(e)
	probe(i)
	probe(a)
	probe(p)
	probe(error{})
	probe(int32("x"))
	probe2(e, i)
	probe2(a, e)
}
`

// comment rules: MatchComment binds every named group of the regexp (and $$, the whole match) to a piece of
// the comment; a group that took no part in the match is bound to an empty piece.  `pattern` is a regexp.
var c07CommentShapes = []c07Shape{
	{"comment:named-group", `//\s*(?P<x>\w+)`, false},
	{"comment:two-groups", `(?P<x>\w+)[ :]+(?P<y>\w+)`, true},
	{"comment:group-not-in-match", `(?P<x>TODO)|(?P<y>FIXME)`, true},
	{"comment:optional-group", `nolint(?P<x>:\w+)?`, false},
	{"comment:empty-group", `//(?P<x>\d*)(?P<y>\s*)`, true},
	{"comment:whole-comment-group", `(?s)^(?P<x>.*)$`, false},
	{"comment:no-groups", `TODO|FIXME|nolint`, false},
	{"comment:unnamed-group-only", `(TODO)\((\w+)\)`, false},
	{"comment:multi-line-group", `(?s)/\*(?P<x>.*?)\*/`, false},
	{"comment:nested-groups", `(?P<x>(?P<y>\w)\w*)$`, true},
	{"comment:empty-match", `(?P<x>)`, false},
}

var c07CommentRootShapes = map[string]bool{"comment:no-groups": true, "comment:unnamed-group-only": true, "comment:named-group": true, "comment:empty-match": true, "comment:multi-line-group": true}

const c07CommentTarget = `// Package p is the comment target. TODO(owner): things
package p

import "fmt" // nolint:imports

/* block comment
   TODO second line
   x y */

// T is a type. FIXME later
type T struct {
	a int // field a: 10
	b int /* inline */ // two: comments
}

//
/**/
//go:generate echo 42
// 42 is a number, x + 1 is an expression, probe(x) a call
var global = 10 // nolint

// f does things.
//
// Deprecated: use g. TODO(user): remove
func f(x int) int {
	// x
	if x > 0 { // nolint:gocritic // reason
		/* TODO */ return x // trailing 7
	}
	fmt.Println(x) //   spaced   words   here
	// юникод комментарий: текст
	/*
	 * starred
	 * lines: 1
	 */
	return 0
}

// last comment without a newline: FIXME`

var c07ShadowFilters = []string{
	`m["x"].Type.Is("error")`, `m["x"].Type.Is("int32")`, `m["x"].Type.Is("any")`, `m["x"].Type.Is("*error")`, `m["x"].Type.Underlying().Is("string")`,
	`m["x"].Type.Implements("error")`, `m["x"].Type.ConvertibleTo("error")`, `m["x"].Type.AssignableTo("error")`, `m["x"].Type.OfKind("integer")`,
	`m["x"].Filter(isErr)`, `m["x"].Filter(isSmall)`,
}

func runC07Cells(c *Ctx) error {
	res := c.Res
	res.Rule = "product space: every capture shape (expression, two expressions, $* expression list, statement, statement list, typed-nil *ast.FieldList, type expression, " +
		"parameter name, field list, assignment sides, composite elements, selector base, call function, declaration list; comment-rule captures: MatchComment named groups that matched text, matched the empty string, " +
		"took no part in the match, nested and multi-line groups, $$ of rules with and without groups, on line, block, doc, directive, empty and end-of-file comments) x every documented Where() predicate over $x / ($x,$y) / $$ / file / Go version " +
		"x Report, Suggest and At() payloads x TruncateLen in {-1,0,1,3,5,60} x GoVersion unset/set x RunnerState nil/reused, through Engine.Load + Engine.Run under recover on a file covering " +
		"typed and untyped operands in every syntactic position; Run must not panic and every report must have a non-nil node with positions inside the file, a non-nil group, a suggestion range inside the file. " +
		"exhaustive over the enumerated cells; a cell is non-trivial when the rule loads and produces >= 1 match attempt (>= 1 report or a filter rejection); distinct by (shape, filter, context)"
	res.Exhaustive = true
	t, err := hx.ParseTarget("c07.go", c07Target)
	if err != nil {
		return fmt.Errorf("target: %v", err)
	}
	type ctxCfg struct {
		trunc int
		gover string
		reuse bool
	}
	ctxs := []ctxCfg{{0, "", false}, {-1, "1.17", true}, {1, "", true}, {3, "1.21", false}, {5, "", false}, {60, "1.9", true}}
	if !c.Thorough {
		ctxs = ctxs[:3]
	}
	type cell struct {
		shape   c07Shape
		filter  string
		action  string
		shadow  bool
		comment bool
	}
	tComment, err := hx.ParseTarget("c07comment.go", c07CommentTarget)
	if err != nil {
		return fmt.Errorf("comment target: %v", err)
	}
	tShadow, err := hx.ParseTarget("c07shadow.go", c07Shadow)
	if err != nil {
		return fmt.Errorf("shadow target: %v", err)
	}
	var cells []cell
	for _, sh := range c07Shapes {
		for _, f := range c07VarFilters {
			n := strings.Count(f, "%s")
			args := make([]interface{}, n)
			for i := range args {
				args[i] = "x"
			}
			cells = append(cells, cell{shape: sh, filter: fmt.Sprintf(f, args...), action: `Report("$x|$$")`})
			if sh.hasY {
				for i := range args {
					args[i] = "y"
				}
				cells = append(cells, cell{shape: sh, filter: fmt.Sprintf(f, args...), action: `Report("$y")`})
			}
		}
		if sh.hasY {
			for _, f := range c07PairFilters {
				cells = append(cells, cell{shape: sh, filter: f, action: `Report("$x $y")`})
			}
		}
		for _, f := range c07RootFilters {
			cells = append(cells, cell{shape: sh, filter: f, action: `Report("$$")`})
		}
		// payload variants without a filter
		cells = append(cells, cell{shape: sh, filter: "", action: `Report("$x").At(m["x"])`})
		cells = append(cells, cell{shape: sh, filter: "", action: `Report("r $x").Suggest("$x")`})
		cells = append(cells, cell{shape: sh, filter: "", action: `Report("r").At(m["x"]).Suggest("s($x)")`})
		cells = append(cells, cell{shape: sh, filter: "", action: `Suggest("$$")`})
		if sh.hasY {
			cells = append(cells, cell{shape: sh, filter: "", action: `Report("$y").At(m["y"]).Suggest("$y$x")`})
		}
	}
	// comment-rule captures x every predicate the loader accepts for them (it only checks that the variable
	// is a named group or $$): the same predicates, pair predicates, root / file / version predicates and payloads
	for _, sh := range c07CommentShapes {
		hasX := strings.Contains(sh.pattern, "?P<x>")
		for _, f := range c07VarFilters {
			n := strings.Count(f, "%s")
			args := make([]interface{}, n)
			for _, v := range []string{"x", "y", "$$"} {
				if (v == "x" && !hasX) || (v == "y" && !sh.hasY) {
					continue
				}
				if v == "$$" && !c07CommentRootShapes[sh.name] {
					continue // $$ is the same kind of capture whatever the groups are
				}
				for i := range args {
					args[i] = v
				}
				act := `Report("$` + v + `|$$")`
				if v == "$$" {
					act = `Report("$$")`
				}
				cells = append(cells, cell{shape: sh, filter: fmt.Sprintf(f, args...), action: act, comment: true})
			}
		}
		if sh.hasY {
			for _, f := range c07PairFilters {
				cells = append(cells, cell{shape: sh, filter: f, action: `Report("$x $y")`, comment: true})
			}
		}
		if hasX {
			for _, f := range c07PairFilters {
				cells = append(cells, cell{shape: sh, filter: strings.ReplaceAll(f, `m["y"]`, `m["$$"]`), action: `Report("$x")`, comment: true})
			}
		}
		for _, f := range c07RootFilters {
			cells = append(cells, cell{shape: sh, filter: f, action: `Report("$$")`, comment: true})
		}
		cells = append(cells, cell{shape: sh, filter: "", action: `Report("c $$")`, comment: true})
		cells = append(cells, cell{shape: sh, filter: "", action: `Suggest("$$")`, comment: true})
		cells = append(cells, cell{shape: sh, filter: "", action: `Report("r").Suggest("")`, comment: true})
		if hasX {
			cells = append(cells, cell{shape: sh, filter: "", action: `Report("$x").At(m["x"])`, comment: true})
			cells = append(cells, cell{shape: sh, filter: "", action: `Report("r $x").Suggest("$x")`, comment: true})
			cells = append(cells, cell{shape: sh, filter: "", action: `Report("r").At(m["x"]).Suggest("s($x)")`, comment: true})
		}
		if sh.hasY {
			cells = append(cells, cell{shape: sh, filter: "", action: `Report("$y").At(m["y"]).Suggest("$y$x")`, comment: true})
		}
	}
	for _, f := range c07ShadowFilters {
		cells = append(cells, cell{shape: c07Shapes[0], filter: f, action: `Report("$x")`, shadow: true})
	}
	for _, f := range c07PairFilters {
		cells = append(cells, cell{shape: c07Shapes[1], filter: f, action: `Report("$x $y")`, shadow: true})
	}
	ruleText := func(cl cell) string {
		rule := "\tm.Match(`" + cl.shape.pattern + "`)"
		if cl.comment {
			rule = "\tm.MatchComment(`" + cl.shape.pattern + "`)"
		}
		if cl.filter != "" {
			rule += ".Where(" + cl.filter + ")"
		}
		return rule + "." + cl.action
	}
	header := "package gorules\n\nimport (\n\t\"github.com/quasilyte/go-ruleguard/dsl\"\n\t\"github.com/quasilyte/go-ruleguard/dsl/types\"\n)\n\nvar _ = types.Identical\n" + c07Custom + "\n"
	// the comment-rule cells are converted to IR in one batch and loaded with LoadFromIR (one group per engine; every
	// 7th cell goes through Engine.Load like the syntax-rule cells): a Load costs ~25 ms, almost all of it type-checking
	var batch strings.Builder
	for i, cl := range cells {
		if cl.comment {
			fmt.Fprintf(&batch, "func c%d(m dsl.Matcher) {\n%s\n}\n", i, ruleText(cl))
		}
	}
	irGroups := map[string]ir.RuleGroup{}
	irf, irErr := c17ConvertIR(header + batch.String())
	if irErr != nil {
		res.Notes = append(res.Notes, "comment-rule cells: irconv of the batch failed, every cell loaded with Engine.Load: "+clip(irErr.Error()))
	} else {
		for _, g := range irf.RuleGroups {
			irGroups[g.Name] = g
		}
	}
	memTargets := map[*hx.Target]*hx.Target{}
	for i, cl := range cells {
		t := t
		if cl.shadow {
			t = tShadow
		}
		if cl.comment {
			t = tComment
		}
		src := header + "func r(m dsl.Matcher) {\n" + ruleText(cl) + "\n}\n"
		if cl.comment {
			res.Dist("cells:comment-rule")
			res.Dist("cells:" + cl.shape.name)
		} else {
			res.Dist("cells:syntax-rule")
		}
		e := ruleguard.NewEngine()
		var lerr error
		if g, ok := irGroups[fmt.Sprintf("c%d", i)]; ok && cl.comment && i%7 != 0 {
			f := &ir.File{PkgPath: irf.PkgPath, RuleGroups: []ir.RuleGroup{g}, BundleImports: irf.BundleImports}
			if strings.Contains(cl.filter, ".Filter(") {
				f.CustomDecls = irf.CustomDecls
			}
			lerr = func() (err error) {
				defer func() {
					if r := recover(); r != nil {
						err = fmt.Errorf("PANIC %s at %s: %v", hx.PanicKind(r), hx.Frame(debug.Stack()), r)
					}
				}()
				return e.LoadFromIR(&ruleguard.LoadContext{Fset: token.NewFileSet()}, "rules.go", f)
			}()
			res.Dist("cells:loaded-from-IR")
		} else {
			lerr = hx.LoadInto(e, "rules.go", src, nil)
		}
		in := map[string]interface{}{"shape": cl.shape.name, "pattern": cl.shape.pattern, "filter": cl.filter, "action": cl.action, "shadowed_predeclared_target": cl.shadow}
		if lerr != nil {
			if strings.HasPrefix(lerr.Error(), "PANIC") {
				f := strings.Fields(lerr.Error())
				res.Violate(hx.Violation{Signature: "load:panic " + f[1] + "@" + strings.TrimSuffix(f[3], ":"), What: "Load panics: " + clip(lerr.Error()), Input: in, Impl: clip(lerr.Error()), Spec: "error or success"})
			}
			res.Count("cells", fmt.Sprint(i), false)
			res.Dist("cell:load-error")
			if cl.comment {
				res.Dist("cell:load-error:comment-rule")
				if os.Getenv("VERIF_C07_ALL") != "" {
					fmt.Fprintf(os.Stderr, "LOADERR\t%s\t%s\t%s\t%v\n", cl.shape.name, cl.filter, cl.action, lerr)
				}
			}
			continue
		}
		var state *ruleguard.RunnerState
		attempts := 0
		for _, cx := range ctxs {
			opts := hx.RunOpts{TruncateLen: cx.trunc, GoVersion: cx.gover}
			if cx.reuse {
				if state == nil {
					state = ruleguard.NewRunnerState(e)
				}
				opts.State = state
			}
			rs, pk, frame, rerr := hx.Run(e, t, opts)
			in2 := map[string]interface{}{"shape": cl.shape.name, "pattern": cl.shape.pattern, "filter": cl.filter, "action": cl.action, "shadowed_predeclared_target": cl.shadow,
				"TruncateLen": cx.trunc, "GoVersion": cx.gover, "reused_state": cx.reuse}
			if rerr != nil {
				res.Errorf("c07: Run returned an error: %v", rerr)
				continue
			}
			if pk != "" {
				res.Violate(hx.Violation{Signature: "run:" + pk + "@" + frame, What: "Run panics", Input: in2, Impl: pk + " at " + frame, Spec: "no panic"})
				res.Dist("cell:PANIC")
				if os.Getenv("VERIF_C07_ALL") != "" {
					fmt.Fprintf(os.Stderr, "PANIC\t%s\t%s\t%s\t%s\t%s\n", pk, frame, cl.shape.name, cl.filter, cl.action)
				}
				continue
			}
			attempts += len(rs)
			for _, r := range rs {
				bad := ""
				switch {
				case r.NodeNil:
					bad = "report:nil-node"
				case r.GroupNil:
					bad = "report:nil-group"
				case r.Pos < 0 || r.End < r.Pos || r.End > len(t.Src):
					bad = "report:position-outside-file"
				case r.HasSugg && (r.From < 0 || r.To < r.From || r.To > len(t.Src)):
					bad = "report:suggestion-outside-file"
				}
				if bad != "" {
					res.Violate(hx.Violation{Signature: bad + "@" + cl.shape.name, What: "malformed report " + r.String(), Input: in2, Impl: r.String(), Spec: "non-nil node, positions inside the file"})
				}
			}
			res.Dist("cell:ok")
			// the same run with the context's debug settings on (every rejection is explained through reject)
			if c.Thorough || (i+len(rs))%3 == 0 {
				var out []string
				c07GroupName := "r"
				if gs := e.LoadedGroups(); len(gs) > 0 {
					c07GroupName = gs[0].Name
				}
				dopts := opts
				dopts.Debug, dopts.DebugImports, dopts.DebugOut = c07GroupName, true, &out
				drs, dpk, dframe, derr := hx.Run(e, t, dopts)
				in3 := map[string]interface{}{"Debug": c07GroupName, "DebugImports": true}
				for k, v := range in2 {
					in3[k] = v
				}
				switch {
				case derr != nil:
					res.Errorf("c07: Run with debug settings returned an error: %v", derr)
				case dpk != "":
					res.Violate(hx.Violation{Signature: "run:" + dpk + "@" + dframe + ":debug-settings", What: "Run panics when RunContext.Debug / DebugPrint / DebugImports are set", Input: in3, Impl: dpk + " at " + dframe, Spec: "no panic"})
					res.Dist("cell:debug-run:PANIC")
				case c07ReportsKey(drs) != c07ReportsKey(rs):
					res.Violate(hx.Violation{Signature: "run:debug-settings-change-the-reports@" + cl.shape.name, What: "the reports differ when the debug settings are on", Input: in3, Impl: c07ReportsKey(drs), Spec: c07ReportsKey(rs)})
				default:
					res.Dist("cell:debug-run:ok")
					if c07Explained(out) {
						res.Dist("cell:debug-run:explained-a-rejection")
					}
				}
			}
		}
		// the same file when it cannot be read back from disk (an in-memory overlay, a generated file): texts then come
		// from go/printer; the run must not fail there either
		if i%3 == 0 {
			tm := memTargets[t]
			if tm == nil {
				var merr error
				tm, merr = hx.ParseTargetMem(filepath.Base(t.Name), string(t.Src))
				if merr != nil {
					return fmt.Errorf("in-memory target: %v", merr)
				}
				memTargets[t] = tm
			}
			_, pk, frame, rerr := hx.Run(e, tm, hx.RunOpts{})
			if rerr == nil && pk != "" {
				res.Violate(hx.Violation{Signature: "run:" + pk + "@" + frame + ":file-not-on-disk", What: "Run panics when the analysed file cannot be read from disk",
					Input: map[string]interface{}{"shape": cl.shape.name, "pattern": cl.shape.pattern, "filter": cl.filter, "action": cl.action, "file_on_disk": false}, Impl: pk + " at " + frame, Spec: "no panic"})
			}
			res.Dist("cell:file-not-on-disk")
		}
		res.Count("cells", fmt.Sprint(i), attempts > 0)
		if i == 0 {
			res.Sample(in)
		}
	}
	res.Distribution["cells"] = len(cells)
	res.Distribution["contexts-per-cell"] = len(ctxs)
	return nil
}

// runC07 = the product space above + the suites of c07_top.go (the top of the file: patterns matched against the
// *ast.File, top-level declarations, the shallowest nodes) and c07_state.go (caller-provided RunnerState x list patterns
// and $* captures under Contains() filters whose sub-patterns need node slices).  VERIF_C07_ONLY=cells|top|state runs
// one of them (debugging aid; the check never sets it).
func runC07(c *Ctx) error {
	c07Thorough = c.Thorough
	only := os.Getenv("VERIF_C07_ONLY")
	if only == "" || only == "cells" {
		if err := runC07Cells(c); err != nil {
			return err
		}
	}
	c.Res.Rule += c07ExtraRule
	if only == "" || only == "top" {
		if err := runC07Top(c); err != nil {
			return fmt.Errorf("top suite: %v", err)
		}
	}
	if only == "" || only == "state" {
		if err := runC07State(c); err != nil {
			return fmt.Errorf("state suite: %v", err)
		}
	}
	return nil
}
