package main

import (
	"fmt"
	"math/rand"
	"strings"
)

// ifGen generates type-checkable files made of nested if / else-if / else with constant and
// non-constant conditions, init statements, function literals and several functions; every
// basic statement is a call probe(<unique int>).
type ifGen struct {
	r     *rand.Rand
	sb    strings.Builder
	next  int
	depth int
}

var ifConds = []string{"true", "false", "debugT", "debugF", "!debugF", "!debugT", "1 < 0", "2 > 1", "x > 0", "x == 3", "flag", "debugT && debugF", "debugT || flag", "\"a\" == \"a\"",
	// constants of a defined boolean type, derived constants, parenthesised and converted forms
	"onT", "offT", "!offT", "!onT", "derivedT", "derivedF", "(false)", "!(true)", "bool(offT)", "onT && !offT", "bool(offT) || flag", "len(\"ab\") == 2"}

func (g *ifGen) indent(d int) string { return strings.Repeat("\t", d) }

func (g *ifGen) probe(d int) {
	g.next++
	fmt.Fprintf(&g.sb, "%sprobe(%d)\n", g.indent(d), g.next)
}

func (g *ifGen) block(d, budget int) {
	n := 1 + g.r.Intn(3)
	for i := 0; i < n; i++ {
		switch k := g.r.Intn(10); {
		case k < 4 || budget <= 0:
			g.probe(d)
		case k < 8:
			g.ifStmt(d, budget-1)
		case k < 9:
			fmt.Fprintf(&g.sb, "%sfunc() {\n", g.indent(d))
			g.block(d+1, budget-1)
			fmt.Fprintf(&g.sb, "%s}()\n", g.indent(d))
		default:
			fmt.Fprintf(&g.sb, "%sfor i := 0; i < x; i++ {\n", g.indent(d))
			g.block(d+1, budget-1)
			fmt.Fprintf(&g.sb, "%s}\n", g.indent(d))
		}
	}
}

func (g *ifGen) cond() string { return ifConds[g.r.Intn(len(ifConds))] }

func (g *ifGen) ifStmt(d, budget int) {
	init := ""
	if g.r.Intn(4) == 0 {
		g.next++
		init = fmt.Sprintf("y := probe(%d); ", g.next)
	}
	fmt.Fprintf(&g.sb, "%sif %s%s {\n", g.indent(d), init, g.cond())
	if init != "" {
		fmt.Fprintf(&g.sb, "%s_ = y\n", g.indent(d+1))
	}
	g.block(d+1, budget)
	for g.r.Intn(3) == 0 {
		fmt.Fprintf(&g.sb, "%s} else if %s {\n", g.indent(d), g.cond())
		g.block(d+1, budget)
	}
	if g.r.Intn(2) == 0 {
		fmt.Fprintf(&g.sb, "%s} else {\n", g.indent(d))
		g.block(d+1, budget)
	}
	fmt.Fprintf(&g.sb, "%s}\n", g.indent(d))
}

// genIfFile returns one generated file.
func genIfFile(r *rand.Rand, depth int) string {
	g := &ifGen{r: r}
	g.sb.WriteString("package p\n\nconst debugT = true\nconst debugF = false\n\ntype flagT bool\n\nconst onT flagT = true\nconst offT flagT = false\nconst derivedT = !offT\nconst derivedF = onT && offT\n\nvar flag bool\n\nfunc probe(int) int { return 0 }\n\n")
	nf := 1 + r.Intn(3)
	for f := 0; f < nf; f++ {
		if r.Intn(3) == 0 {
			fmt.Fprintf(&g.sb, "type T%d struct{}\n\nfunc (T%d) m%d(x int) {\n", f, f, f)
		} else {
			fmt.Fprintf(&g.sb, "func f%d(x int) {\n", f)
		}
		g.block(1, depth)
		g.sb.WriteString("}\n\n")
	}
	return g.sb.String()
}
