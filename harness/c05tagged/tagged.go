//go:build c05tag

package c05tagged

type Walker interface{ Walk() }
