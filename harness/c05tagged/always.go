// Package c05tagged is a fixture of the C05 harness: Walker exists only under the build tag c05tag, so a rule that
// names it loads only in an engine whose BuildContext carries that tag.
package c05tagged

type Plain struct{}

func (Plain) Walk() {}
