// Package c05bundle is a small rules bundle used by the C05 end-to-end suite
// (dsl.ImportRules of a package that `go list` can find from the harness directory).
package c05bundle

import "github.com/quasilyte/go-ruleguard/dsl"

// Bundle marks this package as an importable rules bundle.
var Bundle = dsl.Bundle{}

//doc:summary bundled rule: x + 0
//doc:tags bundled
func addZero(m dsl.Matcher) {
	m.Match(`$x + 0`, `0 + $x`).Report(`bundled: $x plus zero`)
}

func selfAssign(m dsl.Matcher) {
	m.Match(`$x = $x`).Where(m["x"].Pure).Report(`bundled: self-assignment of $x`)
}
