#!/bin/sh
# tools/trymut.sh <patch.diff> <Cxx> [<Cyy> ...]: apply a seeded change to /repo, run the quick checks, undo.
# Prints one line per check: DETECTED / MISSED and the VIOLATION lines.
set -u
PATCH=$1; shift
cd /verif
if ! git -C /repo diff --quiet; then echo "/repo has uncommitted changes; refusing"; exit 2; fi
git -C /repo apply "$PATCH" || { echo "patch does not apply"; exit 2; }
for P in "$@"; do
  OUT=$(VERIF_TIER=${VERIF_TIER:-quick} ./check $P --tier ${VERIF_TIER:-quick} 2>&1); RC=$?
  if [ $RC -ne 0 ] && echo "$OUT" | grep -q "^VIOLATION property=$P"; then
    echo "DETECTED $P rc=$RC"; echo "$OUT" | grep "^VIOLATION" | head -5
  else
    echo "MISSED $P rc=$RC"; echo "$OUT" | tail -2
  fi
done
git -C /repo checkout -- .
# regenerate tables and rebuild for the unchanged tree so the next run starts clean
(cd harness && GOFLAGS=-mod=mod GOPROXY=off GOSUMDB=off GOTOOLCHAIN=local go build -tags verif -o bin/rgh ./cmd/rgh && ./bin/rgh extract -out ../lean/Rg/Gen) >/dev/null 2>&1
