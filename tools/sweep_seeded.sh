#!/bin/sh
# tools/sweep_seeded.sh [id ...]: for every /verif/seeded/<id>, apply patch.diff to /repo, run the quick checks named in
# meta.json (checks_run), record what each printed in seeded/<id>/detect.json, undo.  Never commits anything in /repo.
set -u
cd /verif
IDS=${*:-$(cd seeded && ls -d */ | tr -d /)}
if ! git -C /repo diff --quiet; then echo "/repo has uncommitted changes; refusing"; exit 2; fi
for ID in $IDS; do
  D=seeded/$ID
  CHECKS=$(python3 -c "import json;print(' '.join(json.load(open('$D/meta.json'))['checks_run']))")
  git -C /repo apply /verif/$D/patch.diff || { echo "$ID patch does not apply"; continue; }
  : > $D/detect.tmp
  for P in $CHECKS; do
    OUT=$(./check $P --tier quick 2>&1); RC=$?
    printf '%s\n' "$OUT" > /tmp/sweep_out.txt
    python3 - "$P" "$RC" >> $D/detect.tmp <<'PY'
import sys,json
p,rc=sys.argv[1],int(sys.argv[2])
lines=[l.rstrip() for l in open('/tmp/sweep_out.txt') if l.startswith('VIOLATION property='+p)]
print(json.dumps({'check':p,'tier':'quick','exit_code':rc,'detected':bool(rc!=0 and lines),'violation_lines':lines[:6]}))
PY
    tail -1 $D/detect.tmp | python3 -c "import sys,json;d=json.loads(sys.stdin.read());print('$ID',d['check'],'DETECTED' if d['detected'] else 'MISSED',d['violation_lines'][:1])"
  done
  git -C /repo checkout -- .
  python3 -c "
import json
rows=[json.loads(l) for l in open('$D/detect.tmp')]
json.dump({'id':'$ID','repo_head':'$(git -C /repo rev-parse --short HEAD)','verif_head':'$(git rev-parse --short HEAD)','results':rows},open('$D/detect.json','w'),indent=1)"
  rm -f $D/detect.tmp
done
(cd harness && GOFLAGS=-mod=mod GOPROXY=off GOSUMDB=off GOTOOLCHAIN=local go build -tags verif -o bin/rgh ./cmd/rgh && ./bin/rgh extract -out ../lean/Rg/Gen) >/dev/null 2>&1
