#!/bin/sh
# tools/mkws.sh <name>: private workspace for parallel development:
#   /scratch/<name>/repo  = git worktree of /repo at HEAD (detached)
#   /scratch/<name>/verif = copy of /verif whose harness builds against that worktree
set -e
N=$1
mkdir -p /scratch/$N
git -C /repo worktree add --detach /scratch/$N/repo HEAD >/dev/null
rsync -a --exclude .git /verif/ /scratch/$N/verif/
sed -i "s#=> /repo#=> /scratch/$N/repo#" /scratch/$N/verif/harness/go.mod
echo "workspace /scratch/$N ready (export VERIF_REPO=/scratch/$N/repo when running ./check there)"
