#!/bin/sh
# tools/confirm_mut.sh <mutdir> <outlog>: independent confirmation of one seeded change in a scratch worktree:
#   applies, builds, passes the existing suite, demo fails with it and passes without it.
# <mutdir> holds patch.diff and demo_test.go (for package dir ruleguard/) or demo/main.go.
set -u
D=$1; LOG=$2
export GOFLAGS=-mod=mod GOPROXY=off GOSUMDB=off GOTOOLCHAIN=local
WT=${CONFIRM_WT:-/scratch/confirm_wt}
if [ ! -d $WT ]; then git -C /repo worktree add --detach $WT HEAD >/dev/null 2>&1; fi
cd $WT && git checkout -q --detach $(git -C /repo rev-parse HEAD) && git checkout -- . && git clean -fdq
run_demo() {
  if [ -f $D/demo_test.go ]; then
    PK=$(grep -m1 '^package ' $D/demo_test.go | awk '{print $2}' | sed 's/_test$//')
    if [ -f $D/demo_pkg.txt ]; then PDIR=$(cat $D/demo_pkg.txt); elif [ "$PK" = ruleguard ]; then PDIR=ruleguard; else PDIR=$(find . -type d -name "$PK" -not -path './.git/*' | grep -v testdata | head -1 | sed 's#^\./##'); fi
    cp $D/demo_test.go $PDIR/zz_demo_test.go
    NAME=$(grep -o 'func Test[A-Za-z0-9_]*' $D/demo_test.go | head -1 | sed 's/func //')
    go test -vet=off -count=1 -run "^$NAME\$" ./$PDIR/ >$WT.demo.out 2>&1; RC=$?
    rm -f $PDIR/zz_demo_test.go
  else
    go run $D/demo/main.go >$WT.demo.out 2>&1; RC=$?
  fi
  return $RC
}
{
echo "== $D at $(git rev-parse --short HEAD)"
if ! git apply --check $D/patch.diff 2>/dev/null; then echo "RESULT patch-does-not-apply"; exit 0; fi
run_demo; echo "demo without change: rc=$?"; W0=$?
git apply $D/patch.diff
go build ./... 2>&1 | tail -3; B=$?
go test -vet=off -count=1 ./ruleguard/... ./internal/... 2>&1 | grep -v "no test files" | tail -8
T1=$(go test -vet=off -count=1 ./ruleguard/... ./internal/... >/dev/null 2>&1; echo $?)
if [ "${SKIP_ANALYZER:-0}" = 1 ]; then T2=skipped; else go test -vet=off -count=1 ./analyzer/ >$WT.an.out 2>&1; T2=$?; tail -2 $WT.an.out; fi
run_demo; W1=$?; echo "demo with change: rc=$W1"; tail -5 $WT.demo.out
git checkout -- . ; git clean -fdq
run_demo; W2=$?; echo "demo without change: rc=$W2"
echo "RESULT build=$B tests=$T1 analyzer=$T2 demo_with=$W1 demo_without=$W2"
} > $LOG 2>&1
